#!/venv/bin/python
"""Writes /verif/MANIFEST.json from the table below (single source of truth for the manifest)."""
import json
import os
import subprocess

VERIF = os.path.dirname(os.path.dirname(os.path.abspath(__file__)))
PY = '/venv/bin/python'

# property -> (technique, what is decided, what is not)
P = {
    'C01': ('AST extraction + constant folding vs ISO oracle tables; per-mode packing normal forms; '
            'written-bits = budgeted-bits multiset comparison; truth table of pair predicates over [0,65535]',
            'tables, packing formulas, bit budget, ECI gating, merge legality, kanji/hanzi predicate inside the '
            "packer's injective domain, text->bytes order",
            'the round trip itself (placement/masking inverse for every content, codec correctness)'),
    'C02': ('constant folding vs BCH/Golay/Annex-E oracles; abstract interpretation of the function-pattern '
            'writers on an abstract matrix for all 44 sizes (anchored-region algebra); def-use of metadata',
            'format/version words (98, exhaustive), alignment table, size formula, finder/separator/timing/'
            'alignment/format/version/dark-module cells and bit->cell maps of both copies for all 44 sizes, '
            'reservation = written regions, cell conservation, metadata flow',
            'nothing about function patterns; placement of data bits is C03'),
    'C03': ('constant folding vs GF(256)/generator/Table-9 oracles; affine index forms and pattern/slot '
            'matching of the division loop; decision table of remainder bits over 44 versions',
            'field tables, 18 generator polynomials, 168 block layouts, division loop index forms and bounds, '
            'final message order, remainder bits, placement guards',
            'the zig-zag placement order for every matrix; the RS correctability theorem'),
    'C04': ('capacity table vs oracle (168 cells); pattern/slot matching of the version scan; finite decision '
            'table of the admissible range over the option flags; dominance of a fit witness before every _encode',
            'capacity table, mode availability, ascending first-fit scan with >=, admissible range table, '
            'requested-version test, fit witness per _encode call, sized = written',
            'the payload bit count of a concrete content (its formula is C01.R2/R3)'),
    'C05': ('constant folding (monotone capacities for 44 versions); loop-shape pattern matching; reaching '
            'definitions of version/error in _encode; guard dominance',
            'level order and strictly decreasing capacities, boost loop shape, Micro level lists, version has one '
            'definition, boost only under the flag, default L and H/Micro refusal, same length measure',
            '"highest level that still holds this content" for a concrete content'),
    'C06': ('finite truth tables of the 8 mask predicates over one period vs ISO Table 10; pattern/slot '
            'matching of the selection loop; sibling comparison row/column of N1; self-overlap shift of the N3 literal',
            'mask predicates, selection comparator/order, requested-mask path, evaluation before format info, '
            'mask region, N1 sibling agreement and constants, N3 resume offset, N4 and Micro formulas',
            'that the N1/N2 counting loops compute the ISO counts for every matrix'),
    'C07': ('order of tests in find_mode; regex AST of the alphanumeric pattern (anchors, exact class); truth '
            'table of is_kanji; guard dominance of pair indexing',
            'detection order/return set, regex anchoring and class = 45 characters, kanji ranges and trail bytes, '
            'requested-mode test and constant order, evenness guard, reported mode = written indicator',
            'codec behaviour'),
    'C08': ('pattern/slot matching and def-use in encode_sequence/_encode; fit-witness dominance per chunk; '
            'forwarding of encoding to parity',
            'header field order/width, total-1, shared parity, parity bytes = message bytes, chunk mode/encoding = '
            "whole message's, fit witness per chunk, QR only, count guards",
            'that concatenated decoded payloads equal the content (needs C01 whole)'),
    'C09': ('def-use of scale/border between header and row source; dominance of int(scale) and validation; '
            'pattern/slot of PNG chunk/IHDR/bit-depth/packing; polarity tables',
            'one row source per writer, truncation before header, validation first, PNG chunk discipline, bit depth, '
            'packing groups/fill/order, polarity per format, declared sample scale',
            'pixel-by-pixel equality and byte-exact well-formedness'),
    'C10': ('sibling comparison of SVG/EPS/PDF scale guards; taint of float scale into floor operations; '
            'unit typing (device vs module) of emitted lengths; PDF object/xref typestate',
            'one run extractor, transform guard, no floor of float scale, units, origin sibling, PDF /Length, xref, '
            'startxref, obj/endobj pairing, page fields, linear colour scale',
            'that matrix_to_lines yields exactly the dark runs and that relative coordinates paint them'),
    'C11': ('constant folding of TYPE constants; anchored-region algebra: classifier regions vs encoder regions '
            'for all 44 sizes; colour-map key/keyword identity; shortcut-guard classification',
            'type constants, tuple polarity, classifier = encoder regions (44 sizes, every cell), colour map wiring '
            'and thresholds, iterator validation, shortcut soundness',
            'the colour bytes in the output files'),
    'C12': ('forwarding tables (wrapper parameter -> writer parameter); CLI defaults vs writer signature defaults; '
            'taint from file name to format templates; dispatch table',
            'dispatch/lower(), wrapper forwarding completeness, transport-only routes, CLI default = writer default '
            'for every (dest, writer), colour list, sequence naming',
            'byte equality of the outputs'),
    'C13': ('finite truth tables of the extracted pad/terminator arithmetic over every (capacity, length) pair '
            'of every version class; literal comparison of pad codewords and terminator table',
            'terminator count, pad-bit count range, pad codeword literals/alternation/count, M1/M3 tail, remainder '
            'zeros, call order in _encode',
            'nothing beyond the pure arithmetic (these helpers are data-independent)'),
    'C14': ('exception-class census of all raise statements; handled-lookup discipline on user-keyed tables; guard '
            'dominance of exclusions before _encode; call-graph acyclicity and loop progress; CLI exit paths',
            'raise discipline, handled lookups and case folds, exclusions, asserts, termination, pair indexing and '
            'colour indexing guards, CLI exit status',
            'absence of every implicit exception for every value (whole-program value analysis)'),
    'C15': ('whole-program effect analysis: mutation sites -> receivers (parameter / module object / owned local), '
            'bottom-up parameter-mutation summaries over the call graph, ownership at mutator call sites; '
            'nondeterminism-source census',
            'no write to module state after import, parameter mutation summaries + ownership, candidate row copies, '
            'no nondeterminism source on the encode path, no mutable defaults, purity of _encode',
            'nothing: the quantifier over histories/schedules collapses to absence of shared mutable state'),
    'C16': ('taint from parameters to payload through escapers; escape-table contents; regex end anchors; '
            'delimiter typestate; EPC guard constants and line order',
            'every interpolated value escaped, tables neutralise delimiters, \\Z anchors, percent-encoding, ?/& '
            'typestate, EPC guards/limits/line order/charset flow/level M/no boost/version guard',
            'numeric equality of the EPC amount; URI validity; C01 for the resulting symbols'),
}

SECTION = {k: f'DESIGN.md section 5, {k}' for k in P}


def built():
    """Properties that have at least one registered rule."""
    code = ('import sys; sys.path.insert(0, %r); from vstatic import core, props; '
            'print(" ".join(sorted(k for k, v in core.RULES.items() if v)))' % VERIF)
    out = subprocess.run([PY, '-c', code], capture_output=True, text=True, check=True).stdout.split()
    return out


def main():
    have = built()
    fixes = subprocess.run(['git', '-C', '/repo', 'log', '--format=%h %s', '--grep=^fix:'], capture_output=True,
                           text=True).stdout.strip().splitlines()
    checks = []
    for pid in sorted(P):
        if pid not in have:
            continue
        tech, decided, notdec = P[pid]
        checks.append({
            'property_id': pid,
            'quick_cmd': f'{PY} -m vstatic.check {pid} --tier quick',
            'thorough_cmd': f'{PY} -m vstatic.check {pid} --tier thorough',
            'evidence_file': f'/verif/evidence/{pid}.json',
            'replay_cmd_template': f'{PY} -m vstatic.check {pid} --replay {{path}}',
            'engine': 'vstatic',
            'level_claimed': {
                'category': 'other',
                'text': ('Static decision (AST of the current /repo source; nothing is imported or executed) of named '
                         'structural necessary conditions of the property: ' + decided + '. Exhaustive over the finite '
                         'tables and size/option classes it ranges over; three-valued (holds / violated / analysis-error). '
                         'NOT decided: ' + notdec + '. This is the right level because the clauses decided are '
                         'data-independent or shape-visible and range over all versions/levels/masks/options at once, '
                         'which no finite test sample reaches; the behavioural remainder needs dynamic techniques and is '
                         'not claimed.'),
                'design_ref': SECTION[pid],
            },
            'level_note': ('Trusted base: CPython ast of /venv/bin/python (3.12), the oracles in vstatic/iso.py (derived '
                           'from ISO/IEC 18004:2015 definitions), CPython semantics of the analysed constructs, no '
                           'monkey-patching. A necessary-condition check: exit 0 does not prove the behavioural property.'),
            'technique': 'static analysis: ' + tech,
        })
    na = [{'property_id': pid, 'reason': 'check not built yet (work in progress; see DESIGN.md section 10)'}
          for pid in sorted(P) if pid not in have]
    manifest = {
        'version': 1,
        'setup_cmd': f'{PY} -m compileall -q vstatic',
        'hooks': {
            'guard': 'SEGNO_VERIF',
            'enable': 'no hooks: the checks are static and read /repo/segno/*.py as it is (SEGNO_VERIF is reserved, unused)',
            'baseline_off_cmd': 'cd /repo && /venv/bin/python -m pytest -q -p no:cacheprovider --timeout=900',
            'source_commits': [],
            'add_only': True,
        },
        'engines': [{
            'name': 'vstatic', 'path': '/verif/vstatic',
            'serves_properties': [c['property_id'] for c in checks],
            'kind_free_text': 'repository-specific static analyser on Python ast (stdlib only): constant evaluator, '
                              'pattern/slot matcher, affine normal forms, structured dominance, abstract interpreter '
                              'for data-independent code, effect analysis, independent ISO oracles, in-memory mutation audit',
        }],
        'checks': checks,
        'not_applicable': na,
        'notes': ('Exit codes: 0 holds / 1 VIOLATION / 2 ANALYSIS-ERROR (anchor restructured; never a silent pass). '
                  'Genuine defects repaired in /repo as separate "fix:" commits (recorded in known_findings.json as fixed): '
                  + '; '.join(fixes)),
    }
    with open(os.path.join(VERIF, 'MANIFEST.json'), 'w') as f:
        json.dump(manifest, f, indent=1)
    print('claimed:', ' '.join(c['property_id'] for c in checks), '| not yet:', ' '.join(x['property_id'] for x in na))


if __name__ == '__main__':
    main()
