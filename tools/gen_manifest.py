#!/venv/bin/python
"""Writes /verif/MANIFEST.json from the table below (single source of truth for the manifest)."""
import json
import os
import subprocess

VERIF = os.path.dirname(os.path.dirname(os.path.abspath(__file__)))
PY = '/venv/bin/python'

# property -> (technique, what is decided, what is not)
P = {
    'C01': ('AST extraction + constant folding vs ISO oracle tables; abstract interpretation of make_segment as a whole over the complete domain of one packing group per mode (truth table, all 65536 byte pairs in the thorough tier); '
            'written-bits = budgeted-bits comparison through an _encode stage trace with the real Segments class; truth table of pair predicates over [0,65535]; regex AST of the alphanumeric pattern',
            'tables, packing formulas, bit budget, ECI gating, merge legality, kanji/hanzi predicate inside the '
            "packer's injective domain, text->bytes order",
            'the round trip itself (placement/masking inverse for every content, codec correctness)'),
    'C02': ('constant folding vs BCH/Golay/Annex-E oracles; abstract interpretation of the function-pattern '
            'writers on an abstract matrix for all 44 sizes (anchored-region algebra); def-use of metadata',
            'format/version words (98, exhaustive), alignment table, size formula, finder/separator/timing/'
            'alignment/format/version/dark-module cells and bit->cell maps of both copies for all 44 sizes, '
            'reservation = written regions, cell conservation, metadata flow',
            'nothing about function patterns; placement of data bits is C03'),
    'C03': ('constant folding vs GF(256)/generator/Table-9 oracles; role-based normal forms of the division loop (single-assignment locals inlined), backed by a counterexample search on probe layouts when the shape is not recognised (a difference is a witness, no difference is UNKNOWN); abstract interpretation of make_final_message and add_codewords on marker codewords / position markers for every version and level',
            'field tables, 18 generator polynomials, 168 block layouts, division loop index forms, operands and bounds, final message order incl. M1/M3 half codeword and remainder bits for every version/level, placement order = ISO 7.7.3 zigzag for the placed markers, surplus refused',
            'that the division computes the Reed-Solomon remainder for every data block (the loop is checked by its index and operand forms, not executed on data); the RS correctability theorem'),
    'C04': ('capacity table vs oracle (168 cells); abstract interpretation of find_version / encode / encode_sequence over a finite domain of option flags and capacity distances with segment construction and version search replaced by recorders and the symbols observed at the leaf stages of symbol creation (bit buffer, booster, final message, matrix stages, Code; calls read through the reference signature, so that a reorganised _encode or a grown signature does not change the reading) (fit witness: the segments searched are the segments encoded, version >= result)',
            'capacity table, mode availability, first admissible fitting version for every admissible-range combination, requested-version test, fit witness per _encode call on every path of encode / encode_sequence, bits budgeted = bits written',
            'the payload bit count of a concrete content (its formula is C01.R2/R3)'),
    'C05': ('constant folding (monotone capacities for 44 versions); abstract interpretation of boost_error_level (decision table over version x requested level x both sides of every capacity x segment count) and of _encode with the real booster on a segment model whose bit count depends on the version asked about (stage trace); decision table of encode',
            'level order and strictly decreasing capacities, highest fitting level of the version for every boundary, Micro level lists, version unchanged, boost only under the flag, default L and H/Micro refusal, same length measure (eci / is_sa / version) as the version search',
            '"highest level that still holds this content" for a concrete content'),
    'C06': ('finite truth tables of the 8 mask predicates over one period vs ISO Table 10; abstract interpretation of the selection function with arbitrary score vectors; normal forms and propositional comparison of the N1/N2/N3 scoring conditions (role-based, truth tables over their atoms), backed by a counterexample search on 193 probe symbols against an ISO 7.8.3.1 oracle when the shape is not recognised (witness or UNKNOWN); self-overlap shift of the N3 literal; N4 as a backward slice evaluated for every dark count',
            'mask predicates, lowest-numbered optimum, requested-mask path, evaluation before format info, mask region = complement of function patterns, N1 thresholds and scores at all four sites, N2 condition, N3 literal / window / edge condition / resume offset, N4 and Micro formulas for every dark count',
            'that the N1/N2 counting loops compute the ISO counts for every matrix (their conditions and increments are checked, the scan over a matrix is not executed)'),
    'C07': ('abstract interpretation of find_mode with the content abstracted to isdigit() and every compiled pattern / the kanji predicate to one answer (decision table over the eight outcomes); regex AST of the alphanumeric pattern per consulting method (match / fullmatch / search); truth table of is_kanji; abstract interpretation of the head of make_segment and of encode over mode x version',
            'detection order/return set, whole-string use of the pattern and class = 45 characters, kanji ranges and trail bytes, requested-mode decision table, evenness guard, mode/version refusal for 6 x 44 combinations, reported mode = written indicator',
            'codec behaviour'),
    'C08': ('abstract interpretation of encode_sequence with the content abstracted to position markers, segment construction, version search and parity replaced by recorders and every symbol observed at the leaf stages of symbol creation (the Structured Append header decoded from the bits in the buffer when the first segment is written)',
            'k symbols whose chunks concatenate to the content, whole-message mode/encoding, header fields and widths before any segment, shared parity over the message bytes in the chunk encoding, common fitting version, per-chunk fit witness, refusals',
            'that concatenated decoded payloads equal the content (needs C01 whole)'),
    'C09': ('abstract interpretation of every raster/text serialiser on a pattern symbol with reference row sources and a recording output; the output is decoded by an independent reader of the format (PBM P1/P4, PAM, PPM, XPM, XBM, PNG incl. CRC/IHDR/PLTE/tRNS/filters, ANSI and half-block terminal) and compared with the picture of the pattern symbol, over a grid of sizes, scales (incl. fractional and byte-aligned widths), borders and colour classes',
            'well-formedness (signature, chunk length/CRC/order, declared dimensions = pixel data), pixel (x, y) = colour of module (y div s - b, x div s - b) incl. the quiet zone, int() truncation of the scale, row source asked for the same scale/border, packing and polarity of every format, PAM header decision over all colour classes, PNG palette / alpha / transparency for 140 colour-class combinations, dpi / compresslevel',
            'real symbols of every size (the pattern symbol stands for them because the serialisers touch the symbol only through the row sources, which C11.R6 decides)'),
    'C10': ('abstract interpretation of the SVG/EPS/PDF/TeX serialisers with the run extractor replaced by marker runs / a reference extractor and a recording output; the document is parsed (attributes, transforms, path data, operators, xref) and compared with the required structure; taint of float scale into floor operations; bounded-exhaustive check of the run extractor',
            'page fields = (size+2b)*scale, transform iff scale != 1 and placed after the background, runs in module units at the border offset, colours for all 256 component values, PDF /Length, xref, startxref, obj/endobj pairing, no floor of a float-tainted scale, run extractor = maximal dark runs (bounded)',
            'the run extractor beyond the bounded domain (every 0/1 matrix up to 1x6 and 2x4)'),
    'C11': ('constant folding of TYPE constants; anchored-region algebra: classifier regions vs encoder regions for all 44 sizes; decision table of the colour map over sizes and keywords; abstract interpretation of the SVG / PNG / PPM serialisers on a typed pattern symbol with decoding of the output (as C09)',
            'type constants, polarity, classifier = encoder regions (44 sizes, every cell), colour map wiring and thresholds, iterator mapping and validation, every module painted with the colour of its type in SVG (incl. two-colour shortcut, background, transparent modules), PNG and PPM',
            'real symbols (see C09)'),
    'C12': ('abstract interpretation of save / the data-URI and inline routes / QRCodeSequence.save / the CLI (argparse run by the interpreter) with recording serialisers; forwarding tables (wrapper parameter -> writer parameter); CLI defaults vs writer signature defaults; the keyword table of the CLI computed by interpreting its module-level introspection on descriptors built from each serialiser\'s decorator chain',
            'dispatch by kind and extension in any case incl. svgz, data URI / inline text decode to exactly the serialiser output (known finding: quote style), wrapper forwarding completeness, CLI default = writer default for every (dest, writer), only accepted keywords passed, sequence file naming from the parts of the name',
            'byte equality of the outputs of real symbols'),
    'C13': ('finite truth tables of the pad/terminator helpers (interpreted) over every (capacity, length) pair of every version class; _encode stage trace with recording stand-ins',
            'terminator count, pad-bit count range, pad codeword alternation/count, M1/M3 tail, order of the three helpers on one bit buffer with current lengths, capacity of the boosted level',
            'nothing beyond the pure arithmetic (these helpers are data-independent)'),
    'C14': ('exception-class census of all raise statements; handled-lookup discipline on user-keyed tables; decision tables of the normalisers, of encode / encode_sequence (exclusions refused before _encode) and of the colour parsers over malformed and well-formed values; serialisers rendered with bad scale / border (refusal before the output is opened); '
            'call-graph acyclicity and loop progress arguments (growing / shrinking counters, find-search loops), bounded use of unbounded iterators; CLI exit paths by interpretation',
            'raise discipline, handled lookups and case folds, exclusions, asserts, termination, pair indexing and '
            'colour indexing guards, CLI exit status',
            'absence of every implicit exception for every value (whole-program value analysis)'),
    'C15': ('whole-program effect analysis: mutation sites -> receivers (parameter / module object / owned local), '
            'bottom-up parameter-mutation summaries over the call graph, ownership at mutator call sites; '
            'nondeterminism-source and identity-test census; add_segment interpreted with equal values in one and in two objects',
            'no write to module state after import, parameter mutation summaries + ownership, candidate row copies, '
            'no nondeterminism source on the encode path, no mutable defaults, purity of _encode',
            'nothing: the quantifier over histories/schedules collapses to absence of shared mutable state'),
    'C16': ('abstract interpretation of the payload builders on hostile marker values (every delimiter, escape character and line break in every parameter) with an independent parser of WIFI / MeCard / vCard / mailto payloads; escape-table contents; regex end anchors; abstract interpretation of the EPC builder on length-only texts and boundary amounts; factories interpreted with recording stand-ins',
            'WIFI/MeCard fields split at unescaped ; and recover verbatim, one content line per vCard value, dates validated, mailto addresses/texts/delimiters, escape tables, \\Z anchors, EPC limits on both sides of every boundary, line order, charset number, 331-byte guard, level M / no boost / version <= 13, factories forward every parameter',
            'numeric equality of the EPC amount for every Decimal; geo formatting beyond the sample grid; C01 for the resulting symbols'),
}

SECTION = {k: f'DESIGN.md section 5, {k}' for k in P}


def built():
    """Properties that have at least one registered rule."""
    code = ('import sys; sys.path.insert(0, %r); from vstatic import core, props; '
            'print(" ".join(sorted(k for k, v in core.RULES.items() if v)))' % VERIF)
    out = subprocess.run([PY, '-c', code], capture_output=True, text=True, check=True).stdout.split()
    return out


def main():
    have = built()
    fixes = subprocess.run(['git', '-C', '/repo', 'log', '--format=%h %s', '--grep=^fix:'], capture_output=True,
                           text=True).stdout.strip().splitlines()
    checks = []
    for pid in sorted(P):
        if pid not in have:
            continue
        tech, decided, notdec = P[pid]
        checks.append({
            'property_id': pid,
            'quick_cmd': f'{PY} -m vstatic.check {pid} --tier quick',
            'thorough_cmd': f'{PY} -m vstatic.check {pid} --tier thorough',
            'evidence_file': f'/verif/evidence/{pid}.json',
            'replay_cmd_template': f'{PY} -m vstatic.check {pid} --replay {{path}}',
            'engine': 'vstatic',
            'level_claimed': {
                'category': 'other',
                'text': ('Static decision (AST of the current /repo source; nothing of the repository is imported or run under CPython; data-independent control code is interpreted by the analyser over model objects) of named '
                         'structural necessary conditions of the property: ' + decided + '. Exhaustive over the finite '
                         'tables and size/option classes it ranges over; three-valued (holds / violated / analysis-error). '
                         'NOT decided: ' + notdec + '. This is the right level because the clauses decided are '
                         'data-independent or shape-visible and range over all versions/levels/masks/options at once, '
                         'which no finite test sample reaches; the behavioural remainder needs dynamic techniques and is '
                         'not claimed.'),
                'design_ref': SECTION[pid],
            },
            'level_note': ('Trusted base: CPython ast of /venv/bin/python (3.12), the oracles in vstatic/iso.py (derived '
                           'from ISO/IEC 18004:2015 definitions), CPython semantics of the analysed constructs, no '
                           'monkey-patching. A necessary-condition check: exit 0 does not prove the behavioural property.'),
            'technique': 'static analysis: ' + tech,
        })
    na = [{'property_id': pid, 'reason': 'check not built yet (work in progress; see DESIGN.md section 10)'}
          for pid in sorted(P) if pid not in have]
    manifest = {
        'version': 1,
        'setup_cmd': f'{PY} -m compileall -q vstatic',
        'hooks': {
            'guard': 'SEGNO_VERIF',
            'enable': 'no hooks: the checks are static and read /repo/segno/*.py as it is (SEGNO_VERIF is reserved, unused)',
            'baseline_off_cmd': 'cd /repo && /venv/bin/python -m pytest -q -p no:cacheprovider --timeout=900',
            'source_commits': [],
            'add_only': True,
        },
        'engines': [{
            'name': 'vstatic', 'path': '/verif/vstatic',
            'serves_properties': [c['property_id'] for c in checks],
            'kind_free_text': 'repository-specific static analyser on Python ast (stdlib only): constant evaluator, '
                              'pattern/slot matcher, affine normal forms, structured dominance, abstract interpreter '
                              'for data-independent code, effect analysis, independent ISO oracles, in-memory mutation audit',
        }],
        'checks': checks,
        'not_applicable': na,
        'notes': ('Exit codes: 0 holds / 1 VIOLATION / 2 ANALYSIS-ERROR (anchor restructured; never a silent pass). '
                  'Genuine defects repaired in /repo as separate "fix:" commits (recorded in known_findings.json as fixed): '
                  + '; '.join(fixes)),
    }
    with open(os.path.join(VERIF, 'MANIFEST.json'), 'w') as f:
        json.dump(manifest, f, indent=1)
    print('claimed:', ' '.join(c['property_id'] for c in checks), '| not yet:', ' '.join(x['property_id'] for x in na))


if __name__ == '__main__':
    main()
