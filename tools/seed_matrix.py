#!/venv/bin/python
"""Run every kept seeded change (seeded/<id>/patch.diff) against the static checks of its property, in memory
(the patch is applied to the module sources of /repo's current tree, nothing on disk changes), and record the
verdict in seeded/<id>/meta.json and seeded/STATUS.md."""
import concurrent.futures as cf
import glob
import json
import os
import sys

sys.path.insert(0, os.path.dirname(os.path.dirname(os.path.abspath(__file__))))
from vstatic import core, mut, src  # noqa: E402
from vstatic import props  # noqa: E402,F401


def one(d):
    sid = os.path.basename(d)
    prop = sid.split('-')[0]
    base = src.Forest.load()
    try:
        srcs = mut.apply_patch_text(base.sources, open(os.path.join(d, 'patch.diff'), encoding='utf-8').read())
    except Exception as ex:
        return sid, prop, 'patch does not apply in memory', [], [str(ex)]
    f = base
    for m, text in srcs.items():
        f = f.with_source(m, text)
    fx, results = core.run_rules(f, prop, 'quick')
    known = core.load_known()
    viol, unk, first = [], [], ''
    for rr in results:
        if rr.unknown:
            unk.append(f'{rr.rule.full}: {rr.unknown[:160]}')
        for o in rr.obs:
            if not o.ok and not any(core.finding_matches(e, o) for e in known):
                if not first:
                    first = f'{o.rule} {o.where}:{o.line} [{o.key}] extracted: {o.got[:200]} | required: {o.want[:120]}'
                if o.rule not in viol:
                    viol.append(o.rule)
    verdict = 'VIOLATION' if viol else ('ANALYSIS-ERROR' if unk else 'not reported')
    return sid, prop, verdict, viol, unk, first


def main():
    dirs = sorted(glob.glob(os.path.join(core.VERIF, 'seeded', 'C*-*')))
    only = os.environ.get('PROPS')
    if only:
        dirs = [d for d in dirs if os.path.basename(d).split('-')[0] in only.split(',')]
    rows = []
    with cf.ProcessPoolExecutor(max_workers=12) as ex:
        for r in ex.map(one, dirs):
            rows.append(r)
            sid, prop, verdict, viol, unk = r[:5]
            print(f'{sid:8} {verdict:15} {",".join(viol)} {"| " + unk[0][:100] if unk and not viol else ""}')
            mp = os.path.join(core.VERIF, 'seeded', sid, 'meta.json')
            meta = json.load(open(mp))
            meta['static_check'] = {'verdict': verdict, 'rules_reporting': viol, 'analysis_errors': unk[:3], 'first_report': r[5] if len(r) > 5 else ''}
            json.dump(meta, open(mp, 'w'), indent=1, ensure_ascii=False)
    n = len(rows)
    nv = sum(1 for r in rows if r[2] == 'VIOLATION')
    nu = sum(1 for r in rows if r[2] == 'ANALYSIS-ERROR')
    with open(os.path.join(core.VERIF, 'seeded', 'STATUS.md') if not only else os.devnull, 'w') as f:
        f.write('# Seeded breaking changes vs. the static checks\n\n')
        f.write(f'{n} changes, each confirmed (pinned suite passes with it, its demo fails with it and passes without it). '
                f'Reported as VIOLATION: {nv}; ANALYSIS-ERROR only (exit 2, restructured beyond a rule\'s grammar): {nu}; not reported: {n - nv - nu}.\n\n')
        f.write('| id | property | verdict | rules | what was changed |\n|---|---|---|---|---|\n')
        for r in rows:
            meta = json.load(open(os.path.join(core.VERIF, 'seeded', r[0], 'meta.json')))
            f.write(f'| {r[0]} | {r[1]} | {r[2]} | {", ".join(r[3])} | {meta.get("summary", "")[:160].replace("|", "/")} |\n')
    print(f'{n} seeds: {nv} VIOLATION, {nu} ANALYSIS-ERROR, {n - nv - nu} not reported')


if __name__ == '__main__':
    main()
