#!/venv/bin/python
"""Run behaviour-preserving refactorings (benign/<id>/patch.diff or $BENIGN_ROOT/Cxx/_out/rN/patch.diff) against the checks of
their property in memory.  A VIOLATION here is a false alarm of the checks."""
import concurrent.futures as cf
import glob
import json
import os
import sys

sys.path.insert(0, os.path.dirname(os.path.dirname(os.path.abspath(__file__))))
from vstatic import core, mut, src  # noqa: E402
from vstatic import props  # noqa: E402,F401


def one(a):
    name, prop, path = a
    base = src.Forest.load()
    try:
        srcs = mut.apply_patch_text(base.sources, open(path, encoding='utf-8').read())
    except Exception as ex:
        return name, prop, 'patch does not apply', [], [str(ex)[:100]], []
    f = base
    try:
        for m, text in srcs.items():
            f = f.with_source(m, text)
    except SyntaxError as ex:
        return name, prop, 'does not parse', [], [str(ex)], []
    props_to_run = [prop] if os.environ.get('ALL_PROPS') != '1' else sorted(core.RULES)
    if os.environ.get('PROPS'):
        props_to_run = os.environ['PROPS'].split(',')       # only these properties, against every refactoring
    known = core.load_known()
    viol, unk, details = [], [], []
    for p in props_to_run:
        fx, results = core.run_rules(f, p, 'quick')
        for rr in results:
            if rr.unknown:
                unk.append(f'{rr.rule.full}: {rr.unknown[:140]}')
            for o in rr.obs:
                if not o.ok and not any(core.finding_matches(e, o) for e in known):
                    if o.rule not in viol:
                        viol.append(o.rule)
                        details.append(f'{o.rule} [{o.key[:70]}] got: {o.got[:160]} | want: {o.want[:100]}')
    verdict = 'FALSE ALARM' if viol else ('analysis-error' if unk else 'silent')
    return name, prop, verdict, viol, unk, details


def main():
    root = os.environ.get('BENIGN_ROOT')
    items = []
    if root:
        for p in sorted(glob.glob(os.path.join(root, 'C*', '_out', 'r*', 'patch.diff'))):
            parts = p.split(os.sep)
            items.append((f'{parts[-4]}-{parts[-2]}', parts[-4], p))
    else:
        for d in sorted(glob.glob(os.path.join(core.VERIF, 'benign', 'C*-*'))):
            items.append((os.path.basename(d), os.path.basename(d).split('-')[0], os.path.join(d, 'patch.diff')))
    n = {'FALSE ALARM': 0, 'analysis-error': 0, 'silent': 0}
    rows = []
    with cf.ProcessPoolExecutor(max_workers=int(os.environ.get('JOBS', '12'))) as ex:
        for name, prop, verdict, viol, unk, details in ex.map(one, items):
            n[verdict] = n.get(verdict, 0) + 1
            rows.append((name, prop, verdict, viol, unk))
            print(f'{name:8} {verdict:15} {",".join(viol)}')
            for d in details[:6]:
                print('      ', d)
            if not viol:
                for u in unk[:4]:
                    print('       UNKNOWN', u)
    print(n)
    if not root and not os.environ.get('PROPS'):
        with open(os.path.join(core.VERIF, 'benign', 'STATUS.md'), 'w') as f:
            f.write('# Behaviour-preserving refactorings vs. the static checks\n\n'
                    f'{len(rows)} refactorings (each: pinned suite passes, equivalence program reports identical behaviour). '
                    f'Silent (exit 0): {n.get("silent", 0)}; analysis-error only (exit 2): {n.get("analysis-error", 0)}; false alarms (VIOLATION): {n.get("FALSE ALARM", 0)}.\n\n'
                    '| id | verdict | rules |\n|---|---|---|\n')
            for name, prop, verdict, viol, unk in rows:
                f.write(f'| {name} | {verdict} | {", ".join(viol) or "; ".join(u.split(":")[0] for u in unk[:6])} |\n')


if __name__ == '__main__':
    main()
