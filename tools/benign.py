#!/venv/bin/python
"""Benign-variant audit for all properties: behaviour-preserving rewrites must never be reported as violations."""
import concurrent.futures as cf
import os
import sys

sys.path.insert(0, os.path.dirname(os.path.dirname(os.path.abspath(__file__))))
from vstatic import core, mut, src  # noqa: E402
from vstatic import props  # noqa: E402,F401
from vstatic.anchors import ANCHORS  # noqa: E402


def one(a):
    prop, name = a
    mut._init(src.repo_root())
    fa, ta = ANCHORS[prop]
    mods = sorted(set(fa) | set(ta))
    f = mut._BASE
    for m in mods:
        f = f.with_tree(m, mut.BENIGN[name](mut._BASE.trees[m]))
    fx, results = core.run_rules(f, prop, 'quick')
    known = core.load_known()
    out = []
    for rr in results:
        if rr.unknown:
            out.append(('UNKNOWN', rr.rule.full, rr.unknown[:150]))
        for o in rr.obs:
            if not o.ok and not any(core.finding_matches(e, o) for e in known):
                out.append(('VIOLATED', o.rule, f'{o.key[:60]} | got {o.got[:90]} | want {o.want[:60]}'))
    return prop, name, out


def main():
    only = sys.argv[1:]
    tasks = [(p, n) for p in sorted(ANCHORS) for n in mut.BENIGN if not only or p in only]
    nv = nu = 0
    with cf.ProcessPoolExecutor(max_workers=14) as ex:
        for prop, name, out in ex.map(one, tasks):
            seen = set()
            for kind, rule, msg in out:
                if (kind, rule) in seen:
                    continue
                seen.add((kind, rule))
                nv += kind == 'VIOLATED'
                nu += kind == 'UNKNOWN'
                print(f'{prop} {name:24} {kind:8} {rule:9} {msg}')
    print(f'false alarms (VIOLATED on a benign variant): {nv}; UNKNOWN: {nu}')


if __name__ == '__main__':
    main()
