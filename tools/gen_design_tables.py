#!/venv/bin/python
"""Regenerates the generated regions of DESIGN.md (between <!-- BEGIN:name --> and <!-- END:name -->):
rules (from the rule registry), mutation (from evidence/*.json of the last thorough runs), seeds (from seeded/*/meta.json)."""
import glob
import json
import os
import re
import sys

VERIF = os.path.dirname(os.path.dirname(os.path.abspath(__file__)))
sys.path.insert(0, VERIF)
from vstatic import core, props  # noqa: E402,F401


def rules():
    out = []
    for prop in sorted(core.RULES):
        out.append(f'\n**{prop}**\n')
        out.append('| rule | decides | min |\n|---|---|---|')
        for r in core.RULES[prop]:
            out.append(f'| {r.full} | {r.title} | {r.min_inst} |')
    return '\n'.join(out)


def mutation():
    out = ['| id | repo commit | obligations | mutants analysed (sites in anchors) | reported | analysis-error | not reported | seeded changes reported | benign variants / refactorings flagged |',
           '|---|---|---|---|---|---|---|---|---|']
    for f in sorted(glob.glob(os.path.join(VERIF, 'audit', 'C*.json'))):
        c = json.load(open(f))
        sv = c.get('seeded_variants') or []
        bv = c.get('benign_variants') or []
        out.append(f"| {c['property_id']} | {c.get('repo_commit', '')} | {c.get('obligations', '')} | {c['mutants']} ({c['mutation_sites_in_anchors']}) | {c['mutants_reported']} | "
                   f"{c['mutants_analysis_error']} | {c['mutants_not_reported']} | {sum(1 for s in sv if s['reported_by'])}/{len(sv)} | "
                   f"{sum(1 for b in bv if b['violations'])}/{len(bv)} |")
    return '\n'.join(out)


def seeds():
    out = ['| id | verdict | rules reporting | what was changed (seeder\'s summary) |', '|---|---|---|---|']
    for d in sorted(glob.glob(os.path.join(VERIF, 'seeded', 'C*-*'))):
        m = json.load(open(os.path.join(d, 'meta.json')))
        sc = m.get('static_check', {})
        out.append(f"| {os.path.basename(d)} | {sc.get('verdict', '?')} | {', '.join(sc.get('rules_reporting', []))} | "
                   f"{m.get('summary', '')[:170].replace('|', '/').replace(chr(10), ' ')} |")
    return '\n'.join(out)


def fixes():
    kf = json.load(open(os.path.join(VERIF, 'known_findings.json')))['findings']
    rv = {r['commit']: r for r in json.load(open(os.path.join(VERIF, 'seeded', 'reverted_fixes.json')))}
    out = ['| id | commit | property | defect | rules that fire when the fix is reverted (in memory) |', '|---|---|---|---|---|']
    for e in kf:
        if e.get('status') != 'fixed':
            continue
        r = rv.get(e['commit'], {})
        fired = ', '.join(r.get('rules_firing_when_reverted', [])) or 'NOT REPORTED'
        if r.get('note'):
            fired += f" ({r['note'][:60]})"
        out.append(f"| {e['id']} | {e['commit']} | {e['property']} | {e['what'][:200].replace('|', '/')} | {fired} |")
    return '\n'.join(out)


def benign():
    out = ['| id | kind (author\'s summary) |', '|---|---|']
    for d in sorted(glob.glob(os.path.join(VERIF, 'benign', 'C*-*'))):
        try:
            m = json.load(open(os.path.join(d, 'meta.json')))
        except Exception:
            m = {}
        out.append(f"| {os.path.basename(d)} | {str(m.get('kind', ''))[:60].replace('|', '/')}: {str(m.get('summary', ''))[:200].replace('|', '/').replace(chr(10), ' ')} |")
    return '\n'.join(out)


def main():
    p = os.path.join(VERIF, 'DESIGN.md')
    s = open(p, encoding='utf-8').read()
    for name, fn in (('rules', rules), ('mutation', mutation), ('seeds', seeds), ('fixes', fixes), ('benign', benign)):
        pat = re.compile(r'(<!-- BEGIN:%s -->).*?(<!-- END:%s -->)' % (name, name), re.S)
        if pat.search(s):
            s = pat.sub(lambda m: m.group(1) + '\n' + fn() + '\n' + m.group(2), s)
    open(p, 'w', encoding='utf-8').write(s)


if __name__ == '__main__':
    main()
