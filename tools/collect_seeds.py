#!/venv/bin/python
"""Verify the seeded changes produced by sub-agents and keep them under /verif/seeded/<id>/.

For every /tmp/seed/<Cxx>/_out/<v>/ (patch.diff, demo.py, meta.json):
  1. a fresh scratch worktree of /repo HEAD is created under /tmp/seedverify/,
  2. demo.py must pass (exit 0) on the unchanged tree,
  3. the patch must apply, the pinned test suite must still report 1576 passed,
  4. demo.py must fail (exit != 0) with the patch applied,
  5. the static checks of the property are run against the patched scratch tree (VERIF_REPO) and the verdict recorded.
The worktree is removed afterwards.  Nothing is ever applied to /repo itself here.
"""
import concurrent.futures as cf
import json
import os
import shutil
import subprocess
import sys

PY = '/venv/bin/python'
ROOT = os.environ.get('SEED_ROOT', '/tmp/seed')
OUT = '/verif/seeded'
WORK = '/tmp/seedverify'


def run(cmd, cwd=None, env=None, timeout=900):
    e = dict(os.environ)
    if env:
        e.update(env)
    p = subprocess.run(cmd, cwd=cwd, env=e, capture_output=True, text=True, timeout=timeout)
    return p.returncode, (p.stdout + p.stderr)


def verify(item):
    prop, var = item
    sid = f'{prop}-{var}'
    srcdir = os.path.join(ROOT, prop, '_out', var)
    if not os.path.exists(os.path.join(srcdir, 'patch.diff')):
        return sid, {'error': 'no patch'}
    wt = os.path.join(WORK, sid)
    shutil.rmtree(wt, ignore_errors=True)
    run(['git', '-C', '/repo', 'worktree', 'prune'])
    rc, out = run(['git', '-C', '/repo', 'worktree', 'add', '-q', '--detach', wt, 'HEAD'])
    res = {'property': prop, 'variant': var}
    try:
        env = {'SEGNO_SRC': wt, 'PYTHONPATH': wt}
        rc0, out0 = run([PY, os.path.join(srcdir, 'demo.py')], cwd=wt, env=env)
        res['demo_clean_exit'] = rc0
        rca, outa = run(['git', '-C', wt, 'apply', os.path.join(srcdir, 'patch.diff')])
        res['applies'] = rca == 0
        if rca != 0:
            res['error'] = outa[-300:]
            return sid, res
        rct, outt = run([PY, '-m', 'pytest', '-q', '-p', 'no:cacheprovider', '-x'], cwd=wt, env={'PYTHONPATH': wt})
        res['tests'] = outt.strip().splitlines()[-1] if outt.strip() else ''
        rc1, out1 = run([PY, os.path.join(srcdir, 'demo.py')], cwd=wt, env=env)
        res['demo_patched_exit'] = rc1
        res['demo_patched_tail'] = out1.strip().splitlines()[-1][:300] if out1.strip() else ''
        # static checks against the patched scratch tree
        verdicts = {}
        props = [prop] + [p for p in sys.argv[1:] if p.startswith('+')]
        rcc, outc = run([PY, '-m', 'vstatic.check', prop, '--repo', wt, '--no-evidence'], cwd='/verif')
        lines = [l for l in outc.splitlines() if l.startswith('  rule=')]
        res['check_exit'] = rcc
        res['check_rules_fired'] = sorted({l.split()[0].split('=')[1] for l in lines})
        res['check_first'] = (lines[0].strip()[:300] if lines else '')
    finally:
        run(['git', '-C', '/repo', 'worktree', 'remove', '--force', wt])
        shutil.rmtree(wt, ignore_errors=True)
    ok = res.get('demo_clean_exit') == 0 and res.get('applies') and '1576 passed' in res.get('tests', '') and res.get('demo_patched_exit', 0) != 0
    res['confirmed'] = bool(ok)
    if ok:
        dst = os.path.join(OUT, sid)
        os.makedirs(dst, exist_ok=True)
        shutil.copy(os.path.join(srcdir, 'patch.diff'), dst)
        shutil.copy(os.path.join(srcdir, 'demo.py'), dst)
        meta = {}
        try:
            meta = json.load(open(os.path.join(srcdir, 'meta.json')))
        except Exception:
            pass
        meta.update({
            'id': sid, 'property': prop, 'origin': 'independent sub-agent given only the property text and a scratch worktree',
            'verified_by_me': {
                'base_commit': subprocess.run(['git', '-C', '/repo', 'rev-parse', '--short', 'HEAD'], capture_output=True, text=True).stdout.strip(),
                'demo_on_unchanged_tree_exit': res['demo_clean_exit'], 'patch_applies': True, 'pinned_suite_with_patch': res['tests'],
                'demo_with_patch_exit': res['demo_patched_exit'], 'demo_with_patch_says': res['demo_patched_tail'],
                'commands': ['git worktree add <scratch> HEAD', 'SEGNO_SRC=<scratch> python demo.py', 'git apply patch.diff',
                             'python -m pytest -q -p no:cacheprovider', 'SEGNO_SRC=<scratch> python demo.py',
                             'python -m vstatic.check <prop> --repo <scratch>', 'git worktree remove --force <scratch>'],
            },
            'static_check': {'exit': res['check_exit'], 'rules_fired': res['check_rules_fired'], 'first_report': res['check_first']},
        })
        json.dump(meta, open(os.path.join(dst, 'meta.json'), 'w'), indent=1, ensure_ascii=False)
    return sid, res


def main():
    os.makedirs(WORK, exist_ok=True)
    only = [a for a in sys.argv[1:] if not a.startswith('+')]
    items = [(f'C{i:02d}', v) for i in range(1, 17) for v in os.environ.get('SEED_VARIANTS', 'a b').split() if not only or f'C{i:02d}' in only or f'C{i:02d}-{v}' in only]
    with cf.ThreadPoolExecutor(max_workers=8) as ex:
        for sid, res in ex.map(verify, items):
            print(sid, 'confirmed' if res.get('confirmed') else 'NOT CONFIRMED', '| check exit', res.get('check_exit'), res.get('check_rules_fired'),
                  '|', res.get('tests', ''), '| demo', res.get('demo_clean_exit'), res.get('demo_patched_exit'), res.get('error', ''))
            sys.stdout.flush()
    shutil.rmtree(WORK, ignore_errors=True)


if __name__ == '__main__':
    main()
