#!/bin/sh
# usage: seedcheck.sh <seed id> [props...]   -- apply /verif/seeded/<id>/patch.diff to /repo, run quick checks, undo
id="$1"; shift
[ $# -eq 0 ] && set -- "${id%%-*}"
git -C /repo apply "/verif/seeded/$id/patch.diff" || { echo "PATCH DOES NOT APPLY: $id"; exit 3; }
for p in "$@"; do
  /venv/bin/python -m vstatic.check "$p" --no-evidence >/tmp/seedrun/out.$$ 2>&1
  rc=$?
  echo "== $id $p exit=$rc"; grep -A3 -E "^(VIOLATION|ANALYSIS-ERROR)" /tmp/seedrun/out.$$ | grep -v "^--" | head -${LINES_MAX:-8} | cut -c1-300
done
rm -f /tmp/seedrun/out.$$
git -C /repo checkout -- .
